(** Lemmas about Model/Ansi.v (C16): the generated SGR table is the documented one (finite sweep
    over all u16 codes), the SGR loop equals an independent interpreter, and parse_ansi gives every
    character exactly the attribute that was current when it was printed. *)
From SkimV Require Import Common.Base Gen.SgrTable Model.Merge Model.Ansi Proof.Merge.
Local Open Scope N_scope.

(** * reflection of the equality tests *)
Lemma color_eqb_eq a b : color_eqb a b = true <-> a = b.
Proof.
  destruct a, b; cbn; try (split; [discriminate | intros H; discriminate H]); try tauto.
  - rewrite N.eqb_eq. split; [intros ->; reflexivity | intros H; inversion H; reflexivity].
  - rewrite !andb_true_iff, !N.eqb_eq. split; [intros [[-> ->] ->]; reflexivity | intros H; inversion H; auto].
Qed.
Lemma attr_eqb_eq a b : attr_eqb a b = true <-> a = b.
Proof.
  unfold attr_eqb. rewrite !andb_true_iff, !color_eqb_eq, N.eqb_eq. destruct a, b; cbn.
  split; [intros [[-> ->] ->]; reflexivity | intros H; inversion H; auto].
Qed.

(** * the SGR table *)
Inductive upd := UReset | UOr (m : N) | UFg (c : color) | UBg (c : color) | UId | UExt (to_fg : bool).

Definition apply_upd (u : upd) (a : attr) : attr :=
  match u with
  | UReset => default_attr
  | UOr m => with_eff a (N.lor (eff a) m)
  | UFg c => with_fg a c
  | UBg c => with_bg a c
  | UId | UExt _ => a
  end.

(** ECMA-48 8.3.117 / xterm: what a single SGR code selects *)
Definition BOLD := 1. Definition DIM := 2. Definition UNDERLINE := 4. Definition BLINK := 8. Definition REVERSE := 16.
Definition between (lo c hi : N) : bool := (lo <=? c) && (c <=? hi).
Definition spec_upd (c : N) : upd :=
  if c =? 0 then UReset
  else if c =? 1 then UOr BOLD else if c =? 2 then UOr DIM else if c =? 4 then UOr UNDERLINE
  else if c =? 5 then UOr BLINK else if c =? 7 then UOr REVERSE
  else if between 30 c 37 then UFg (CAnsi (c - 30))
  else if c =? 38 then UExt true
  else if c =? 39 then UFg CDefault
  else if between 40 c 47 then UBg (CAnsi (c - 40))
  else if c =? 48 then UExt false
  else if c =? 49 then UBg CDefault
  else if between 90 c 97 then UFg (CAnsi (c - 90 + 8))
  else if between 100 c 107 then UBg (CAnsi (c - 100 + 8))
  else UId.

(** what the generated table does for a code *)
Definition table_upd (c : N) : upd :=
  match find_action sgr_table c with
  | Some AReset => UReset
  | Some (AOrEffect m) => UOr m
  | Some (AFgAnsi k) => UFg (CAnsi (u8 (c - k)))
  | Some (ABgAnsi k) => UBg (CAnsi (u8 (c - k)))
  | Some AFgDefault => UFg CDefault
  | Some ABgDefault => UBg CDefault
  | Some AExtended => UExt (if c =? 38 then ext38_is_fg else ext48_is_fg)
  | None => UId
  end.

Definition upd_eqb (a b : upd) : bool :=
  match a, b with
  | UReset, UReset | UId, UId => true
  | UOr m, UOr m' => N.eqb m m'
  | UFg c, UFg c' | UBg c, UBg c' => color_eqb c c'
  | UExt x, UExt y => Bool.eqb x y
  | _, _ => false
  end.
Lemma upd_eqb_eq a b : upd_eqb a b = true -> a = b.
Proof.
  destruct a, b; cbn; try discriminate; try reflexivity.
  - intros H; apply N.eqb_eq in H; congruence.
  - intros H; apply color_eqb_eq in H; congruence.
  - intros H; apply color_eqb_eq in H; congruence.
  - intros H; apply Bool.eqb_prop in H; congruence.
Qed.

(** bounded universal quantification by computation *)
Definition forallN (n : N) (p : N -> bool) : bool :=
  N.peano_rect (fun _ => bool) true (fun k acc => acc && p k) n.
Lemma forallN_spec p : forall n, forallN n p = true -> forall c, c < n -> p c = true.
Proof.
  intros n. unfold forallN. induction n as [|n IH] using N.peano_ind; intros H c Hc; [lia|].
  rewrite N.peano_rect_succ in H. apply andb_true_iff in H as [H1 H2].
  destruct (N.eq_dec c n) as [->|Hne]; [exact H2 | apply IH; [exact H1 | lia]].
Qed.

(** the sweep: all 65536 values a u16 parameter can take *)
Lemma table_is_spec_sweep : forallN 65536 (fun c => upd_eqb (table_upd c) (spec_upd c)) = true.
Proof. vm_compute. reflexivity. Qed.

Lemma table_is_spec c : c < 65536 -> table_upd c = spec_upd c.
Proof. intros H. apply upd_eqb_eq. exact (forallN_spec _ 65536 table_is_spec_sweep c H). Qed.

(** * the SGR loop against an independent interpreter *)
Definition ext_target (to_fg : bool) (a : attr) (col : color) : attr := if to_fg then with_fg a col else with_bg a col.

(** the documented reading of a parameter list (38/48: `5;n` or `2;r;g;b`; a truncated form
    changes nothing and ends the sequence; an unknown selector is skipped) *)
Fixpoint sgr_spec (ps : list (list N)) (a : attr) {struct ps} : attr :=
  match ps with
  | [] => a
  | code :: rest =>
      match spec_upd (first code) with
      | UExt to_fg =>
          match rest with
          | [] => a
          | p :: rest2 =>
              if is_single p 2 then
                match rest2 with
                | r :: g :: b :: rest3 => sgr_spec rest3 (ext_target to_fg a (CRgb (u8 (first r)) (u8 (first g)) (u8 (first b))))
                | _ => a
                end
              else if is_single p 5 then
                match rest2 with
                | col :: rest3 => sgr_spec rest3 (ext_target to_fg a (CAnsi (u8 (first col))))
                | [] => a
                end
              else sgr_spec rest2 a
          end
      | u => sgr_spec rest (apply_upd u a)
      end
  end.

Definition codes_u16 (ps : list (list N)) : Prop := Forall (fun p => first p < 65536) ps.

Lemma sgr_unfold code rest a :
  sgr (code :: rest) a =
  match table_upd (first code) with
  | UExt to_fg =>
      match rest with
      | [] => a
      | p :: rest2 =>
          if is_single p 2 then
            match rest2 with
            | r :: g :: b :: rest3 => sgr rest3 (ext_target to_fg a (CRgb (u8 (first r)) (u8 (first g)) (u8 (first b))))
            | _ => a
            end
          else if is_single p 5 then
            match rest2 with
            | col :: rest3 => sgr rest3 (ext_target to_fg a (CAnsi (u8 (first col))))
            | [] => a
            end
          else sgr rest2 a
      end
  | u => sgr rest (apply_upd u a)
  end.
Proof.
  cbn [sgr]. unfold table_upd. destruct (find_action sgr_table (first code)) as [[]|]; try reflexivity.
Qed.

Lemma sgr_is_spec : forall n ps a, (length ps <= n)%nat -> codes_u16 ps -> sgr ps a = sgr_spec ps a.
Proof.
  induction n as [|n IH]; intros ps a Hl Hc.
  - destruct ps; [reflexivity | cbn in Hl; lia].
  - destruct ps as [|code rest]; [reflexivity|].
    inversion Hc as [|? ? Hc1 Hc2]; subst. rewrite sgr_unfold, (table_is_spec _ Hc1). cbn [sgr_spec].
    cbn [length] in Hl.
    assert (T : forall l b, (length l <= n)%nat -> codes_u16 l -> sgr l b = sgr_spec l b) by (intros; apply IH; assumption).
    destruct (spec_upd (first code)); try (apply T; [lia | exact Hc2]).
    destruct rest as [|p rest2]; [reflexivity|]. inversion Hc2 as [|? ? _ Hc3]; subst. cbn [length] in Hl.
    destruct (is_single p 2).
    + destruct rest2 as [|r [|g [|b rest3]]]; try reflexivity.
      inversion Hc3 as [|? ? _ H4]; subst. inversion H4 as [|? ? _ H5]; subst. inversion H5 as [|? ? _ H6]; subst.
      apply T; [cbn [length] in Hl; lia | exact H6].
    + destruct (is_single p 5).
      * destruct rest2 as [|col rest3]; [reflexivity|]. inversion Hc3; subst. apply T; [cbn [length] in Hl; lia | assumption].
      * apply T; [lia | exact Hc3].
Qed.

(** * parse_ansi: every character carries the attribute current when it was printed *)

(** reference semantics of a callback sequence: the characters that reach the text, each with the
    running attribute; (characters so far, current attribute) *)
Definition text_exec (b : N) : bool := (b =? 0) || (b =? 13) || (b =? 10) || (b =? 9).
Definition ref_step (st : list (char * attr) * attr) (c : cb) : list (char * attr) * attr :=
  let (acc, cur) := st in
  match c with
  | Print ch => (acc ++ [(ch, cur)], cur)
  | Execute b => if text_exec b then (acc ++ [(b, cur)], cur) else (acc, cur)
  | Csi params action =>
      if negb (action =? 109) then (acc, cur)
      else (acc, sgr params (match params with [] => default_attr | _ => cur end))
  | Esc => (acc ++ [(34, cur); (91, cur)], cur)
  | Ignored => (acc, cur)
  end.
Definition ref_run (cbs : list cb) (cur : attr) : list (char * attr) * attr := fold_left ref_step cbs ([], cur).

(** backspace (which edits the pending text) is outside the property *)
Definition no_backspace (cbs : list cb) : Prop := Forall (fun c => c <> Execute 8) cbs.

Local Notation frag := (attr * (N * N))%type.

(** fragments tile [lo, hi) with non-empty consecutive ranges *)
Fixpoint tiles (lo : N) (f : list frag) (hi : N) : Prop :=
  match f with
  | [] => lo = hi
  | (_, (s, e)) :: r => s = lo /\ s < e /\ tiles e r hi
  end.

Lemma tiles_snoc lo f mid hi a : tiles lo f mid -> mid < hi -> tiles lo (f ++ [(a, (mid, hi))]) hi.
Proof.
  revert lo; induction f as [|[a0 [s e]] r IH]; intros lo T H; cbn [tiles app] in *.
  - subst. repeat split; try lia.
  - destruct T as (T1 & T2 & T3). repeat split; try assumption. apply IH; assumption.
Qed.

Lemma tiles_le lo f hi : tiles lo f hi -> lo <= hi.
Proof. revert lo; induction f as [|[a0 [s e]] r IH]; intros lo T; cbn [tiles] in T; [lia|]. destruct T as (T1 & T2 & T3). specialize (IH e T3). lia. Qed.

Lemma tiles_wf lo f hi : tiles lo f hi -> wf_from lo f.
Proof.
  revert lo; induction f as [|[a0 [s e]] r IH]; intros lo T; cbn [tiles wf_from] in *; [exact I|].
  destruct T as (T1 & T2 & T3). repeat split; try lia. apply IH, T3.
Qed.

Lemma den_above lo (f : list frag) hi k : tiles lo f hi -> hi <= k -> den f k = None.
Proof.
  revert lo; induction f as [|[a0 [s e]] r IH]; intros lo T H; cbn [den]; [reflexivity|].
  destruct T as (T1 & T2 & T3). pose proof (tiles_le _ _ _ T3).
  assert (E : (k <? e) = false) by (apply N.ltb_ge; lia). rewrite E, andb_false_r. apply (IH e T3 H).
Qed.

Lemma den_app (f g : list frag) k : den (f ++ g) k = match den f k with Some a => Some a | None => den g k end.
Proof.
  induction f as [|[a0 [s e]] r IH]; cbn [app den]; [reflexivity|].
  destruct ((s <=? k) && (k <? e)); [reflexivity | exact IH].
Qed.

(** the invariant of the fold: [Es] are the characters already saved into fragments, [Ep] the
    pending ones (all with the current attribute) *)
Record PInv (s : pst) (Es Ep : list (char * attr)) : Prop := {
  pi_text : map fst Es = stripped s;
  pi_pending : Ep = map (fun c => (c, last_attr s)) (rev (partial s));
  pi_count : count s = N.of_nat (length Es);
  pi_tiles : tiles 0 (frags s) (count s);
  pi_den : forall k c a, nth_error Es k = Some (c, a) -> den (frags s) (N.of_nat k) = Some a
}.

Lemma PInv_push s Es Ep c : PInv s Es Ep -> PInv (push s c) Es (Ep ++ [(c, last_attr s)]).
Proof.
  intros [H1 H2 H3 H4 H5]. constructor; cbn [push partial last_attr stripped count frags]; try assumption.
  rewrite H2. cbn [rev]. rewrite map_app. reflexivity.
Qed.

Lemma map_fst_pending (a : attr) l : map fst (map (fun c : char => (c, a)) l) = l.
Proof. induction l; cbn; [|rewrite IHl]; reflexivity. Qed.

Lemma PInv_save s Es Ep : PInv s Es Ep -> PInv (save_str s) (Es ++ Ep) [].
Proof.
  intros [H1 H2 H3 H4 H5]. unfold save_str. destruct (partial s) as [|c p] eqn:Ep0.
  - cbn [rev map] in H2. subst Ep. rewrite app_nil_r. constructor; try assumption. rewrite Ep0. reflexivity.
  - set (n := N.of_nat (length (c :: p))).
    assert (Hn : 0 < n) by (unfold n; cbn [length]; lia).
    assert (Hlen : length Ep = length (c :: p)) by (rewrite H2, map_length, rev_length; reflexivity).
    constructor; cbn [partial last_attr stripped count frags].
    + rewrite map_app, H1, H2, map_fst_pending. reflexivity.
    + reflexivity.
    + rewrite app_length, Hlen. fold n. unfold n. lia.
    + apply tiles_snoc; [exact H4 | lia].
    + intros k ch a Hk. rewrite den_app.
      destruct (Nat.lt_ge_cases k (length Es)) as [Hlt|Hge].
      * rewrite nth_error_app1 in Hk by exact Hlt. rewrite (H5 k ch a Hk). reflexivity.
      * rewrite nth_error_app2 in Hk by exact Hge.
        rewrite (den_above 0 (frags s) (count s)) by (try exact H4; lia).
        assert (Hkn : (k - length Es < length Ep)%nat) by (apply nth_error_Some; congruence).
        rewrite H2 in Hk. rewrite nth_error_map in Hk. destruct (nth_error (rev (c :: p)) (k - length Es)); [|discriminate].
        cbn in Hk. inversion Hk; subst. cbn [den].
        assert (E1 : (count s <=? N.of_nat k) = true) by (apply N.leb_le; lia).
        assert (E2 : (N.of_nat k <? count s + n) = true) by (apply N.ltb_lt; unfold n; lia).
        rewrite E1, E2. reflexivity.
Qed.

Lemma PInv_attr_change s Es Ep a : PInv s Es Ep ->
  exists Es', PInv (attr_change s a) Es' (if attr_eqb a (last_attr s) then Ep else []) /\
              Es' ++ (if attr_eqb a (last_attr s) then Ep else []) = Es ++ Ep /\ last_attr (attr_change s a) = a.
Proof.
  intros HI. unfold attr_change. destruct (attr_eqb a (last_attr s)) eqn:E.
  - apply attr_eqb_eq in E. exists Es. split; [exact HI|]. split; [reflexivity | symmetry; exact E].
  - pose proof (PInv_save s Es Ep HI) as [H1 H2 H3 H4 H5]. exists (Es ++ Ep). split; [|split; [rewrite app_nil_r; reflexivity | reflexivity]].
    constructor; cbn [partial last_attr stripped count frags]; try assumption.
    assert (Hp : partial (save_str s) = []) by (unfold save_str; destruct (partial s) eqn:Ep0; [exact Ep0 | reflexivity]).
    rewrite Hp. reflexivity.
Qed.

Lemma handle_inv s Es Ep c : PInv s Es Ep -> c <> Execute 8 ->
  exists Es' Ep', PInv (handle s c) Es' Ep' /\
    (Es' ++ Ep', last_attr (handle s c)) = ref_step (Es ++ Ep, last_attr s) c.
Proof.
  intros HI Hc. destruct c as [ch|b|params action| |]; cbn [handle ref_step].
  - exists Es, (Ep ++ [(ch, last_attr s)]). split; [apply PInv_push, HI|]. rewrite app_assoc. reflexivity.
  - destruct (b =? 8) eqn:E8; [apply N.eqb_eq in E8; subst; congruence|]. unfold text_exec.
    destruct ((b =? 0) || (b =? 13) || (b =? 10) || (b =? 9)).
    + exists Es, (Ep ++ [(b, last_attr s)]). split; [apply PInv_push, HI|]. rewrite app_assoc. reflexivity.
    + exists Es, Ep. split; [exact HI | reflexivity].
  - destruct (negb (action =? 109)); [exists Es, Ep; split; [exact HI | reflexivity]|].
    set (a := sgr params match params with [] => default_attr | _ :: _ => last_attr s end).
    destruct (PInv_attr_change s Es Ep a HI) as (Es' & HI' & Heq & Hla).
    exists Es', (if attr_eqb a (last_attr s) then Ep else []). split; [exact HI'|]. rewrite Heq, Hla. reflexivity.
  - exists Es, ((Ep ++ [(34, last_attr s)]) ++ [(91, last_attr s)]). split.
    + apply (PInv_push (push s 34) Es (Ep ++ [(34, last_attr s)]) 91). apply PInv_push, HI.
    + cbn [push last_attr]. rewrite <- !app_assoc. reflexivity.
  - exists Es, Ep. split; [exact HI | reflexivity].
Qed.

Lemma fold_inv : forall cbs s Es Ep, PInv s Es Ep -> no_backspace cbs ->
  exists Es' Ep', PInv (fold_left handle cbs s) Es' Ep' /\
    (Es' ++ Ep', last_attr (fold_left handle cbs s)) = fold_left ref_step cbs (Es ++ Ep, last_attr s).
Proof.
  induction cbs as [|c cbs IH]; intros s Es Ep HI Hn; cbn [fold_left].
  - exists Es, Ep. split; [exact HI | reflexivity].
  - inversion Hn as [|? ? Hc Hn']; subst.
    destruct (handle_inv s Es Ep c HI Hc) as (Es1 & Ep1 & HI1 & E1).
    destruct (IH (handle s c) Es1 Ep1 HI1 Hn') as (Es2 & Ep2 & HI2 & E2).
    exists Es2, Ep2. split; [exact HI2|]. rewrite E2, E1. reflexivity.
Qed.

(** a parser between two parse_ansi calls *)
Definition clean (s : pst) : Prop := partial s = [] /\ stripped s = [] /\ count s = 0 /\ frags s = [].

Lemma PInv_clean s : clean s -> PInv s [] [].
Proof. intros (H1 & H2 & H3 & H4). constructor; rewrite ?H1, ?H2, ?H3, ?H4; cbn; try reflexivity. intros k c a Hk. destruct k; discriminate. Qed.

Lemma combine_fst_snd {X Y} (l : list (X * Y)) : combine (map fst l) (map snd l) = l.
Proof. induction l as [|[x y] l IH]; cbn; [|rewrite IH]; reflexivity. Qed.

Lemma iter_of_inv s Es : PInv s Es [] -> partial s = [] ->
  iter (new_string (stripped s) (frags s)) = Es /\ a_text (new_string (stripped s) (frags s)) = map fst Es.
Proof.
  intros [H1 H2 H3 H4 H5] Hp. split; [|cbn; symmetry; exact H1].
  assert (Hlk : forall k c a, nth_error Es k = Some (c, a) -> lookup (frags s) (N.of_nat k) = Some a).
  { intros k c a Ek. rewrite (lookup_den 0 (frags s) (N.of_nat k) (tiles_wf _ _ _ H4)). exact (H5 k c a Ek). }
  assert (Hden : forall f, f = frags s ->
     map (fun o : option attr => match o with Some a => a | None => default_attr end) (iter_attrs f (length (stripped s))) = map snd Es).
  { intros f ->. rewrite iter_attrs_lookup. rewrite <- H1, map_length.
    apply nth_error_ext_lists. intros k.
    rewrite !nth_error_map, nth_error_seq0. destruct (Nat.ltb_spec k (length Es)) as [Hk|Hk]; cbn [option_map].
    - destruct (nth_error Es k) as [[c a]|] eqn:Ek; [|apply nth_error_None in Ek; lia].
      cbn [option_map snd]. rewrite (Hlk k c a Ek). reflexivity.
    - destruct (nth_error Es k) eqn:Ek; [|reflexivity]. assert (k < length Es)%nat by (apply nth_error_Some; congruence). lia. }
  unfold iter, new_string. cbn [a_frags a_text].
  destruct (frags s) as [|[a0 [s0 e0]] [|f2 fr]] eqn:Ef.
  - (* no fragment: the text is empty *)
    cbn [tiles] in H4. assert (Es = []) by (destruct Es; [reflexivity | cbn [length] in H3; lia]). subst Es. rewrite <- H1. reflexivity.
  - destruct (attr_eqb a0 default_attr) eqn:Ea.
    + (* a single default fragment covering the whole text *)
      apply attr_eqb_eq in Ea. subst a0. rewrite <- H1. rewrite <- (combine_fst_snd Es) at 2.
      assert (Hs : map snd Es = map (fun _ => default_attr) (map fst Es)).
      { rewrite map_map. apply nth_error_ext_lists. intros k. rewrite !nth_error_map.
        destruct (nth_error Es k) as [[c a]|] eqn:Ek; cbn [option_map snd]; [|reflexivity]. f_equal.
        specialize (H5 k c a Ek). cbn [den] in H5.
        destruct ((s0 <=? N.of_nat k) && (N.of_nat k <? e0)); [inversion H5; reflexivity | discriminate]. }
      rewrite Hs. clear. induction (map fst Es) as [|x l IH]; cbn; [|rewrite IH]; reflexivity.
    + rewrite (Hden _ eq_refl), <- H1. apply combine_fst_snd.
  - rewrite (Hden _ eq_refl), <- H1. apply combine_fst_snd.
Qed.

Theorem parse_pointwise s cbs : clean s -> no_backspace cbs ->
  let (x, s') := parse_ansi s cbs in
  iter x = fst (ref_run cbs (last_attr s)) /\
  a_text x = map fst (fst (ref_run cbs (last_attr s))) /\
  last_attr s' = snd (ref_run cbs (last_attr s)) /\ clean s'.
Proof.
  intros Hc Hn. unfold parse_ansi.
  destruct (fold_inv cbs s [] [] (PInv_clean s Hc) Hn) as (Es & Ep & HI & E).
  pose proof (PInv_save _ Es Ep HI) as HS.
  set (s1 := save_str (fold_left handle cbs s)) in *.
  assert (Hp : partial s1 = []) by (unfold s1, save_str; destruct (partial (fold_left handle cbs s)) eqn:Ep0; [exact Ep0 | reflexivity]).
  assert (Hla : last_attr s1 = last_attr (fold_left handle cbs s)) by (unfold s1, save_str; destruct (partial (fold_left handle cbs s)); reflexivity).
  destruct (iter_of_inv s1 (Es ++ Ep) HS Hp) as [I1 I2].
  unfold ref_run. cbn [app] in E. rewrite <- E. cbn [fst snd].
  split; [exact I1|]. split; [exact I2|]. split; [exact Hla|].
  unfold clean. cbn. auto.
Qed.

(** * the text: no CSI byte survives; printed characters and tabs stay in order *)
Definition printed_of (c : cb) : text :=
  match c with
  | Print ch => [ch]
  | Execute b => if text_exec b then [b] else []
  | Esc => [34; 91]
  | _ => []
  end.
Definition printed (cbs : list cb) : text := flat_map printed_of cbs.

Lemma ref_text : forall cbs acc cur,
  map fst (fst (fold_left ref_step cbs (acc, cur))) = map fst acc ++ printed cbs.
Proof.
  induction cbs as [|c cbs IH]; intros acc cur; cbn [fold_left printed flat_map]; [rewrite app_nil_r; reflexivity|].
  fold (printed cbs). destruct c as [ch|b|params action| |]; cbn [ref_step printed_of].
  - rewrite IH, map_app, <- app_assoc. reflexivity.
  - destruct (text_exec b); rewrite IH; [rewrite map_app, <- app_assoc|]; reflexivity.
  - destruct (negb (action =? 109)); rewrite IH; reflexivity.
  - rewrite IH, map_app, <- app_assoc. reflexivity.
  - rewrite IH. reflexivity.
Qed.

Lemma ref_run_text cbs cur : map fst (fst (ref_run cbs cur)) = printed cbs.
Proof. unfold ref_run. rewrite ref_text. reflexivity. Qed.

(** without any SGR sequence every character has the attribute the parser started with *)
Definition no_sgr (cbs : list cb) : Prop := Forall (fun c => match c with Csi _ a => a <> 109 | _ => True end) cbs.

Lemma ref_no_sgr : forall cbs acc cur, no_sgr cbs ->
  snd (fold_left ref_step cbs (acc, cur)) = cur /\
  map snd (fst (fold_left ref_step cbs (acc, cur))) = map snd acc ++ map (fun _ => cur) (printed cbs).
Proof.
  induction cbs as [|c cbs IH]; intros acc cur Hn; cbn [fold_left printed flat_map]; [rewrite app_nil_r; auto|].
  fold (printed cbs). inversion Hn as [|? ? Hc Hn']; subst.
  destruct c as [ch|b|params action| |]; cbn [ref_step printed_of].
  - destruct (IH (acc ++ [(ch, cur)]) cur Hn') as [I1 I2]. split; [exact I1|]. rewrite I2, map_app, <- app_assoc. reflexivity.
  - destruct (text_exec b).
    + destruct (IH (acc ++ [(b, cur)]) cur Hn') as [I1 I2]. split; [exact I1|]. rewrite I2, map_app, <- app_assoc. reflexivity.
    + apply IH, Hn'.
  - destruct (action =? 109) eqn:E; [apply N.eqb_eq in E; contradiction|]. cbn [negb]. apply IH, Hn'.
  - destruct (IH (acc ++ [(34, cur); (91, cur)]) cur Hn') as [I1 I2]. split; [exact I1|]. rewrite I2, map_app, <- app_assoc. reflexivity.
  - apply IH, Hn'.
Qed.

Lemma printed_prints chars : printed (map Print chars) = chars.
Proof. induction chars as [|c l IH]; cbn; [|f_equal; exact IH]; reflexivity. Qed.

(** a plain line: returned unchanged, no attributes *)
Lemma plain_line s chars : clean s -> last_attr s = default_attr ->
  let (x, s') := parse_ansi s (map Print chars) in
  a_text x = chars /\ has_attrs x = false /\ last_attr s' = default_attr.
Proof.
  intros Hc Hd.
  assert (Hnb : no_backspace (map Print chars)) by (apply Forall_forall; intros c Hin; apply in_map_iff in Hin as (x & <- & _); discriminate).
  assert (Hns : no_sgr (map Print chars)) by (apply Forall_forall; intros c Hin; apply in_map_iff in Hin as (x & <- & _); exact I).
  pose proof (parse_pointwise s (map Print chars) Hc Hnb) as P.
  destruct (parse_ansi s (map Print chars)) as [x s'] eqn:Ep. destruct P as (P1 & P2 & P3 & P4).
  pose proof (printed_prints chars) as Hpr.
  rewrite ref_run_text, Hpr in P2. split; [exact P2|].
  destruct (ref_no_sgr (map Print chars) [] (last_attr s) Hns) as [R1 R2]. fold (ref_run (map Print chars) (last_attr s)) in R1, R2.
  split; [|rewrite P3, R1; exact Hd].
  (* every character has the default attribute, so new_string drops the fragments *)
  unfold parse_ansi in Ep. inversion Ep as [[Ex Es']]. clear Ep.
  set (s1 := save_str (fold_left handle (map Print chars) s)) in *.
  unfold has_attrs, new_string. cbn [a_frags].
  assert (Hattrs : map snd (iter x) = map (fun _ => default_attr) chars).
  { rewrite P1, R2, Hpr, Hd. reflexivity. }
  destruct (frags s1) as [|[a0 [s0 e0]] [|f2 fr]] eqn:Ef; [reflexivity | |].
  - destruct (attr_eqb a0 default_attr) eqn:Ea; [reflexivity|]. exfalso.
    (* a single non-default fragment is non-empty, its first character would carry a0 *)
    destruct (fold_inv (map Print chars) s [] [] (PInv_clean s Hc) Hnb) as (Es & Epp & HI & E).
    pose proof (PInv_save _ Es Epp HI) as [H1 H2 H3 H4 H5]. fold s1 in H1, H2, H3, H4, H5.
    rewrite Ef in H4, H5. cbn [tiles] in H4. destruct H4 as (T1 & T2 & T3). subst s0.
    assert (Hne : (0 < length (Es ++ Epp))%nat) by lia.
    destruct (Es ++ Epp) as [|[c0 a1] rest] eqn:Ee; [cbn in Hne; lia|].
    pose proof (H5 0%nat c0 a1 eq_refl) as D. cbn [den N.of_nat] in D.
    assert (E0 : (0 <=? 0) && (0 <? e0) = true) by (apply andb_true_iff; split; [reflexivity | apply N.ltb_lt; exact T2]).
    rewrite E0 in D. inversion D; subst a1.
    cbn [app] in E. unfold ref_run in R2. rewrite <- E in R2. cbn [fst map app snd] in R2.
    rewrite Hpr in R2. destruct chars as [|ch chars']; [discriminate|]. cbn [map] in R2. injection R2 as Ha _.
    rewrite Hd in Ha. subst a0. assert (attr_eqb default_attr default_attr = true) by (apply attr_eqb_eq; reflexivity). congruence.
  - exfalso.
    (* two or more fragments: consecutive fragments differ in attribute, but all are default *)
    destruct (fold_inv (map Print chars) s [] [] (PInv_clean s Hc) Hnb) as (Es & Epp & HI & E).
    clear -Hc Hd Ef s1. unfold s1 in Ef. clear s1.
    (* printing never changes the attribute, so at most one fragment is ever created *)
    assert (G : forall cs st, frags st = [] -> frags (fold_left handle (map Print cs) st) = [] /\ True).
    { induction cs as [|c cs IH]; intros st Hf; cbn [map fold_left]; [auto|]. apply IH. cbn. exact Hf. }
    destruct Hc as (_ & _ & _ & Hf0). destruct (G chars s Hf0) as [Gf _].
    unfold save_str in Ef. destruct (partial (fold_left handle (map Print chars) s)); rewrite ?Gf in Ef; cbn in Ef; discriminate.
Qed.

(** truncated extended forms change nothing *)
Lemma truncated_ext_identity a r g :
  sgr_spec [[38]] a = a /\ sgr_spec [[48]] a = a /\
  sgr_spec [[38]; [5]] a = a /\ sgr_spec [[48]; [5]] a = a /\
  sgr_spec [[38]; [2]] a = a /\ sgr_spec [[38]; [2]; r] a = a /\ sgr_spec [[38]; [2]; r; g] a = a /\
  sgr_spec [[48]; [2]] a = a /\ sgr_spec [[48]; [2]; r] a = a /\ sgr_spec [[48]; [2]; r; g] a = a.
Proof. repeat split; reflexivity. Qed.

Lemma unknown_code_ignored c rest a : spec_upd c = UId -> sgr_spec ([c] :: rest) a = sgr_spec rest a.
Proof. intros H. cbn [sgr_spec first hd]. rewrite H. reflexivity. Qed.
