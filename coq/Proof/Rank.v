(** Lemmas about Model/Rank.v.  The documented meaning of the criteria is written here
    independently of the generated tables ([spec_name], [prefers], [ties]); the generated tables
    are shown equal to it by computation, so a changed match arm in the source breaks
    [code_table_is_spec] / [key_of_is_spec] rather than silently changing the theorem. *)
From SkimV Require Import Common.Base Gen.RankTable Model.Rank.
From Coq Require Import String.
Local Open Scope Z_scope.

(** * The specification, written from the manual *)

Definition all_criteria : list criteria :=
  [CScore; CBegin; CEnd; CNegScore; CNegBegin; CNegEnd; CLength; CNegLength].

Definition spec_name (c : criteria) : string :=
  match c with
  | CScore => "score" | CBegin => "begin" | CEnd => "end" | CLength => "length"
  | CNegScore => "-score" | CNegBegin => "-begin" | CNegEnd => "-end" | CNegLength => "-length"
  end%string.

(** [prefers c a b]: criterion [c] alone puts [a] strictly before [b]. *)
Definition prefers (c : criteria) (a b : vals) : Prop :=
  match c with
  | CScore => v_score a > v_score b          (* higher score first *)
  | CNegScore => v_score a < v_score b
  | CBegin => (v_begin a < v_begin b)%N      (* earlier match start first *)
  | CNegBegin => (v_begin a > v_begin b)%N
  | CEnd => (v_end a < v_end b)%N
  | CNegEnd => (v_end a > v_end b)%N
  | CLength => (v_length a < v_length b)%N   (* shorter item first *)
  | CNegLength => (v_length a > v_length b)%N
  end.

Definition ties (c : criteria) (a b : vals) : Prop :=
  match c with
  | CScore | CNegScore => v_score a = v_score b
  | CBegin | CNegBegin => v_begin a = v_begin b
  | CEnd | CNegEnd => v_end a = v_end b
  | CLength | CNegLength => v_length a = v_length b
  end.

(** Values representable without wrap-around (the property's window). *)
Definition in_range (v : vals) : Prop :=
  - 2147483648 < v_score v < 2147483648 /\
  (v_begin v < 2147483648)%N /\ (v_end v < 2147483648)%N /\ (v_length v < 2147483648)%N.

(** the key without machine arithmetic *)
Definition spec_key (v : vals) (c : criteria) : Z :=
  match c with
  | CScore => - v_score v | CNegScore => v_score v
  | CBegin => Z.of_N (v_begin v) | CNegBegin => - Z.of_N (v_begin v)
  | CEnd => Z.of_N (v_end v) | CNegEnd => - Z.of_N (v_end v)
  | CLength => Z.of_N (v_length v) | CNegLength => - Z.of_N (v_length v)
  end.

(** * The generated tables are the specification *)

Lemma code_table_is_spec :
  code_table = map (fun c => (codes (spec_name c), c)) all_criteria.
Proof. vm_compute. reflexivity. Qed.

Lemma criteria_eqb_eq a b : criteria_eqb a b = true <-> a = b.
Proof. destruct a, b; cbn; split; intros H; try reflexivity; try discriminate. Qed.

Lemma criteria_eqb_refl a : criteria_eqb a a = true.
Proof. apply criteria_eqb_eq; reflexivity. Qed.

Lemma spec_name_inj a b : codes (spec_name a) = codes (spec_name b) -> a = b.
Proof. destruct a, b; vm_compute; intros H; try reflexivity; discriminate. Qed.

Lemma parse_criteria_spec w c :
  parse_criteria w = Some c <-> lower w = codes (spec_name c).
Proof.
  unfold parse_criteria. rewrite code_table_is_spec.
  assert (G : forall l, (forall x, In x l -> In x all_criteria) -> NoDup l ->
     (assoc text_eqb (lower w) (map (fun c => (codes (spec_name c), c)) l) = Some c
      <-> In c l /\ lower w = codes (spec_name c))).
  { induction l as [|x l IH]; intros Hsub Hnd; cbn [map assoc].
    - split; [discriminate | intros [[] _]].
    - inversion Hnd as [|? ? Hx Hl]; subst.
      destruct (text_eqb (lower w) (codes (spec_name x))) eqn:E.
      + apply text_eqb_spec in E. split.
        * intros H; inversion H; subst. split; [left; reflexivity | exact E].
        * intros [_ H]. rewrite H in E. apply spec_name_inj in E. congruence.
      + rewrite IH; [| intros y Hy; apply Hsub; right; exact Hy | exact Hl].
        split.
        * intros [H1 H2]; split; [right; exact H1 | exact H2].
        * intros [[H1|H1] H2]; [| split; assumption].
          subst x. rewrite H2 in E.
          assert (text_eqb (codes (spec_name c)) (codes (spec_name c)) = true) by (apply text_eqb_spec; reflexivity).
          congruence. }
  rewrite G.
  - split; [intros [_ H]; exact H | intros H; split; [destruct c; cbn; tauto | exact H]].
  - intros x _. destruct x; cbn; tauto.
  - repeat constructor; cbn; intuition discriminate.
Qed.

Lemma parse_criteria_none w :
  parse_criteria w = None <-> forall c, lower w <> codes (spec_name c).
Proof.
  split.
  - intros H c E. apply parse_criteria_spec in E. congruence.
  - intros H. destruct (parse_criteria w) eqn:E; [|reflexivity].
    apply parse_criteria_spec in E. exfalso; eapply H; exact E.
Qed.

Lemma wrap32_small z : - 2147483648 <= z < 2147483648 -> wrap32 z = z.
Proof. intros H. unfold wrap32. rewrite Z.mod_small; lia. Qed.

Lemma key_of_is_spec v c : in_range v ->
  key_of neg32 c (v_score v) (cast32 (v_begin v)) (cast32 (v_end v)) (cast32 (v_length v)) = spec_key v c.
Proof.
  intros (Hs & Hb & He & Hl). unfold cast32, neg32.
  rewrite !(wrap32_small (Z.of_N _)) by lia.
  destruct c; cbn [key_of spec_key]; try reflexivity; apply wrap32_small; lia.
Qed.

Lemma slots_cover_take : (rank_take <= rank_slots)%nat.
Proof. vm_compute. repeat constructor. Qed.

Lemma take_is_four : rank_take = 4%nat /\ rank_slots = 4%nat.
Proof. split; reflexivity. Qed.

(** * build_rank *)

Lemma build_rank_spec cs v : in_range v ->
  build_rank cs v = pad rank_slots (map (spec_key v) (firstn rank_take cs)).
Proof.
  intros H. unfold build_rank. f_equal. apply map_ext. intros c. apply key_of_is_spec, H.
Qed.

(** * lexicographic comparison *)

Lemma lex_pad_map {A} (f g : A -> Z) n l : (List.length l <= n)%nat ->
  lex_cmp (pad n (map f l)) (pad n (map g l)) = lex_cmp (map f l) (map g l).
Proof.
  revert l; induction n as [|n IH]; intros l Hl.
  - destruct l; [reflexivity | cbn in Hl; lia].
  - destruct l as [|x l]; cbn [map pad lex_cmp].
    + rewrite Z.compare_refl. specialize (IH [] (Nat.le_0_l _)). cbn [map] in IH. rewrite IH. reflexivity.
    + rewrite IH by (cbn in Hl; lia). reflexivity.
Qed.

Lemma lex_map_lt {A} (f g : A -> Z) l :
  lex_cmp (map f l) (map g l) = Lt <->
  exists i c, nth_error l i = Some c /\ f c < g c /\
              forall j c', (j < i)%nat -> nth_error l j = Some c' -> f c' = g c'.
Proof.
  induction l as [|x l IH]; cbn [map lex_cmp].
  - split; [discriminate | intros (i & c & H & _); destruct i; discriminate].
  - destruct (Z.compare_spec (f x) (g x)) as [E|E|E].
    + rewrite IH. split.
      * intros (i & c & Hn & Hlt & Hpre). exists (S i), c. split; [exact Hn|]. split; [exact Hlt|].
        intros [|j] c' Hj Hc'; cbn in Hc'.
        -- inversion Hc'; subst; exact E.
        -- apply (Hpre j); [lia | exact Hc'].
      * intros (i & c & Hn & Hlt & Hpre). destruct i as [|i]; cbn in Hn.
        -- inversion Hn; subst. lia.
        -- exists i, c. split; [exact Hn|]. split; [exact Hlt|].
           intros j c' Hj Hc'. apply (Hpre (S j)); [lia | exact Hc'].
    + split; [intros _ | reflexivity]. exists 0%nat, x. split; [reflexivity|]. split; [exact E|].
      intros j c' Hj; lia.
    + split; [discriminate|]. intros (i & c & Hn & Hlt & Hpre). destruct i as [|i]; cbn in Hn.
      * inversion Hn; subst; lia.
      * specialize (Hpre 0%nat x). cbn in Hpre. specialize (Hpre (Nat.lt_0_succ _) eq_refl). lia.
Qed.

Lemma lex_map_eq {A} (f g : A -> Z) l :
  lex_cmp (map f l) (map g l) = Eq <-> forall c, In c l -> f c = g c.
Proof.
  induction l as [|x l IH]; cbn [map lex_cmp].
  - split; [intros _ c [] | reflexivity].
  - destruct (Z.compare_spec (f x) (g x)) as [E|E|E].
    + rewrite IH. split.
      * intros H c [Hc|Hc]; [subst; exact E | apply H, Hc].
      * intros H c Hc. apply H. right; exact Hc.
    + split; [discriminate|]. intros H. specialize (H x (or_introl eq_refl)). lia.
    + split; [discriminate|]. intros H. specialize (H x (or_introl eq_refl)). lia.
Qed.

Lemma lex_cmp_antisym a b : lex_cmp b a = CompOpp (lex_cmp a b).
Proof.
  revert b; induction a as [|x a IH]; intros [|y b]; cbn [lex_cmp]; try reflexivity.
  rewrite (Z.compare_antisym x y). destruct (x ?= y); cbn; [apply IH | reflexivity | reflexivity].
Qed.

Lemma spec_key_prefers c a b : in_range a -> in_range b ->
  (spec_key a c < spec_key b c <-> prefers c a b).
Proof. intros _ _. destruct c; cbn [spec_key prefers]; lia. Qed.

Lemma spec_key_ties c a b : spec_key a c = spec_key b c <-> ties c a b.
Proof. destruct c; cbn [spec_key ties]; lia. Qed.

Lemma firstn_length_le {A} n (l : list A) : (List.length (firstn n l) <= n)%nat.
Proof. rewrite firstn_length. lia. Qed.

Lemma rank_cmp_lt cs a b : in_range a -> in_range b ->
  (lex_cmp (build_rank cs a) (build_rank cs b) = Lt <->
   exists i c, nth_error (firstn 4 cs) i = Some c /\ prefers c a b /\
               forall j c', (j < i)%nat -> nth_error (firstn 4 cs) j = Some c' -> ties c' a b).
Proof.
  intros Ha Hb. rewrite !build_rank_spec by assumption.
  rewrite lex_pad_map by (eapply Nat.le_trans; [apply firstn_length_le | apply slots_cover_take]).
  rewrite lex_map_lt. change rank_take with 4%nat.
  split; intros (i & c & Hn & Hlt & Hpre); exists i, c; (split; [exact Hn|]); split.
  - apply spec_key_prefers; assumption.
  - intros j c' Hj Hc'. apply spec_key_ties. eapply Hpre; eassumption.
  - apply spec_key_prefers; assumption.
  - intros j c' Hj Hc'. apply spec_key_ties. eapply Hpre; eassumption.
Qed.

Lemma rank_cmp_eq cs a b : in_range a -> in_range b ->
  (lex_cmp (build_rank cs a) (build_rank cs b) = Eq <->
   forall c, In c (firstn 4 cs) -> ties c a b).
Proof.
  intros Ha Hb. rewrite !build_rank_spec by assumption.
  rewrite lex_pad_map by (eapply Nat.le_trans; [apply firstn_length_le | apply slots_cover_take]).
  rewrite lex_map_eq. change rank_take with 4%nat.
  split; intros H c Hc; apply spec_key_ties, H, Hc.
Qed.

Lemma rank_cmp_gt cs a b : in_range a -> in_range b ->
  (lex_cmp (build_rank cs a) (build_rank cs b) = Gt <->
   lex_cmp (build_rank cs b) (build_rank cs a) = Lt).
Proof.
  intros _ _. rewrite (lex_cmp_antisym (build_rank cs a)).
  destruct (lex_cmp (build_rank cs a) (build_rank cs b)); cbn; split; congruence.
Qed.

(** A later criterion only reorders items that tie on all earlier ones. *)
Lemma first_criterion_decides c cs a b : in_range a -> in_range b ->
  prefers c a b -> lex_cmp (build_rank (c :: cs) a) (build_rank (c :: cs) b) = Lt.
Proof.
  intros Ha Hb Hp. apply rank_cmp_lt; try assumption.
  exists 0%nat, c. split; [reflexivity|]. split; [exact Hp|]. intros j c' Hj; lia.
Qed.

Lemma earlier_criteria_decide pre post post' a b : in_range a -> in_range b ->
  (exists c, In c pre /\ ~ ties c a b) -> (List.length pre <= 4)%nat ->
  lex_cmp (build_rank (pre ++ post) a) (build_rank (pre ++ post) b) =
  lex_cmp (build_rank (pre ++ post') a) (build_rank (pre ++ post') b).
Proof.
  intros Ha Hb (c & Hin & Hnt) Hlen.
  rewrite !build_rank_spec by assumption.
  rewrite !lex_pad_map by (eapply Nat.le_trans; [apply firstn_length_le | apply slots_cover_take]).
  change rank_take with 4%nat.
  assert (G : forall n pre, (List.length pre <= n)%nat -> In c pre ->
     lex_cmp (map (spec_key a) (firstn n (pre ++ post))) (map (spec_key b) (firstn n (pre ++ post))) =
     lex_cmp (map (spec_key a) (firstn n (pre ++ post'))) (map (spec_key b) (firstn n (pre ++ post')))).
  { clear Hin Hlen pre. induction n as [|n IH]; intros pre Hl Hc.
    - destruct pre; [destruct Hc | cbn in Hl; lia].
    - destruct pre as [|x pre]; [destruct Hc|]. cbn [app firstn map lex_cmp].
      destruct (Z.compare_spec (spec_key a x) (spec_key b x)) as [E|E|E]; try reflexivity.
      destruct Hc as [Hc|Hc].
      + subst x. exfalso. apply Hnt. apply spec_key_ties. exact E.
      + apply IH; [cbn in Hl; lia | exact Hc]. }
  apply G; assumption.
Qed.

(** * RankBuilder::new *)

Lemma mem_In c l : mem c l = true <-> In c l.
Proof.
  unfold mem. rewrite existsb_exists. split.
  - intros (x & Hx & E). apply criteria_eqb_eq in E. subst; exact Hx.
  - intros H. exists c. split; [exact H | apply criteria_eqb_refl].
Qed.

Lemma builder_new_explicit cs : In CScore cs \/ In CNegScore cs -> builder_new cs = dedup cs.
Proof.
  intros H. unfold builder_new. cbn [implicit_suppressors existsb].
  destruct H as [H|H]; apply mem_In in H; rewrite H; rewrite ?orb_true_r; reflexivity.
Qed.

Lemma builder_new_implicit cs : ~ In CScore cs -> ~ In CNegScore cs -> builder_new cs = dedup (CScore :: cs).
Proof.
  intros H1 H2. unfold builder_new. cbn [implicit_suppressors existsb].
  destruct (mem CScore cs) eqn:E1; [apply mem_In in E1; contradiction|].
  destruct (mem CNegScore cs) eqn:E2; [apply mem_In in E2; contradiction|].
  reflexivity.
Qed.

(** dedup collapses exactly the adjacent repeats *)
Inductive no_adjacent : list criteria -> Prop :=
| na_nil : no_adjacent []
| na_one x : no_adjacent [x]
| na_cons x y l : x <> y -> no_adjacent (y :: l) -> no_adjacent (x :: y :: l).

Lemma dedup_cons2 x y l :
  dedup (x :: y :: l) = if criteria_eqb x y then dedup (y :: l) else x :: dedup (y :: l).
Proof. reflexivity. Qed.

Lemma dedup_head x l : exists l', dedup (x :: l) = x :: l'.
Proof.
  revert x; induction l as [|y l IH]; intros x.
  - exists []. reflexivity.
  - rewrite dedup_cons2. destruct (criteria_eqb x y) eqn:E.
    + apply criteria_eqb_eq in E; subst. apply IH.
    + eexists; reflexivity.
Qed.

Lemma dedup_no_adjacent l : no_adjacent (dedup l).
Proof.
  induction l as [|x l IH]; [constructor|].
  destruct l as [|y l]; [constructor|].
  rewrite dedup_cons2. destruct (criteria_eqb x y) eqn:E; [exact IH|].
  destruct (dedup_head y l) as (l' & Hl'). rewrite Hl' in *.
  constructor; [|exact IH]. intros ->. rewrite criteria_eqb_refl in E. discriminate.
Qed.

Lemma dedup_In c l : In c (dedup l) <-> In c l.
Proof.
  induction l as [|x l IH]; [reflexivity|].
  destruct l as [|y l]; [reflexivity|].
  rewrite dedup_cons2. destruct (criteria_eqb x y) eqn:E.
  - apply criteria_eqb_eq in E; subst. rewrite IH. cbn; tauto.
  - cbn [In] in *. rewrite IH. tauto.
Qed.

Lemma dedup_fixed l : no_adjacent l -> dedup l = l.
Proof.
  induction 1 as [| |x y l Hxy Hna IH]; try reflexivity.
  rewrite dedup_cons2. destruct (criteria_eqb x y) eqn:E.
  - apply criteria_eqb_eq in E; contradiction.
  - f_equal. exact IH.
Qed.

(** * the --tiebreak option string *)

Fixpoint join_comma (ws : list text) : text :=
  match ws with
  | [] => []
  | [w] => w
  | w :: r => w ++ comma :: join_comma r
  end.

Lemma split_on_nonempty sep t : split_on sep t <> [].
Proof.
  induction t as [|c r IH]; cbn [split_on]; [discriminate|].
  destruct (c =? sep)%N; [discriminate|]. destruct (split_on sep r); [contradiction | discriminate].
Qed.

Lemma split_on_app_sep w r : ~ In comma w ->
  split_on comma (w ++ comma :: r) = w :: split_on comma r.
Proof.
  induction w as [|c w IH]; intros Hn; cbn [app split_on].
  - rewrite N.eqb_refl. reflexivity.
  - destruct (c =? comma)%N eqn:E.
    + apply N.eqb_eq in E. exfalso; apply Hn; left; exact E.
    + rewrite IH by (intros H; apply Hn; right; exact H). reflexivity.
Qed.

Lemma split_on_word w : ~ In comma w -> split_on comma w = [w].
Proof.
  induction w as [|c w IH]; intros Hn; cbn [split_on]; [reflexivity|].
  destruct (c =? comma)%N eqn:E.
  - apply N.eqb_eq in E. exfalso; apply Hn; left; exact E.
  - rewrite IH by (intros H; apply Hn; right; exact H). reflexivity.
Qed.

Lemma split_join ws : ws <> [] -> Forall (fun w => ~ In comma w) ws ->
  split_on comma (join_comma ws) = ws.
Proof.
  induction ws as [|w ws IH]; intros Hne Hall; [contradiction|].
  inversion Hall as [|? ? Hw Hws]; subst.
  destruct ws as [|w' ws].
  - cbn [join_comma]. apply split_on_word, Hw.
  - change (join_comma (w :: w' :: ws)) with (w ++ comma :: join_comma (w' :: ws)).
    rewrite split_on_app_sep by exact Hw. f_equal. apply IH; [discriminate | exact Hws].
Qed.

Lemma parse_tiebreak_words ws : ws <> [] -> Forall (fun w => ~ In comma w) ws ->
  parse_tiebreak (join_comma ws) = filter_map parse_criteria ws.
Proof. intros H1 H2. unfold parse_tiebreak. rewrite split_join by assumption. reflexivity. Qed.

Lemma filter_map_app {A B} (f : A -> option B) l1 l2 :
  filter_map f (l1 ++ l2) = filter_map f l1 ++ filter_map f l2.
Proof.
  induction l1 as [|x l1 IH]; cbn [app filter_map]; [reflexivity|].
  destruct (f x); cbn [app]; rewrite IH; reflexivity.
Qed.

Lemma unknown_word_ignored pre w post : parse_criteria w = None ->
  filter_map parse_criteria (pre ++ w :: post) = filter_map parse_criteria (pre ++ post).
Proof.
  intros H. rewrite !filter_map_app. cbn [filter_map]. rewrite H. reflexivity.
Qed.
